"""C11 — raw KV operations behave as one ordered map regardless of region layout (DESIGN §4 C11)."""
import json
import os
import vcheck
from vcheck import Check

PID = "C11"
CONSTS = ["rawBatchPutSize", "rawBatchPairCount"]


def facts(c):
    v = c.facts_consts("rawkv", CONSTS)
    if v is None:
        return False
    body = "namespace CGV.Gen\n" + "".join(f"def {k} : Nat := {v[k]}\n" for k in CONSTS) + "end CGV.Gen\n"
    c.write_generated("RawKVConsts", body)
    return True


def setup(c):
    c.cov["rule"] = (
        "stateful cases (`# case n`, `reset`): the real rawkv.Client over mocktikv (2 stores) with random region layouts; "
        "`topo split|merge|leader|sendfail <key>` between calls (sendfail = RegionCache.OnSendFail on the key's region: the store epoch is bumped, the sender answers the next requests on cached regions of that store with a pseudo region error WITHOUT an RPC), and `inj n:kind:key` / `inj k<firstkey>#j:kind:key` = the wrapped RPC client "
        "performs the topology change before the n-th request of the call (batch calls: before the j-th request whose first key is "
        "<firstkey>), i.e. between region lookup and request and between the partial requests of one call. ops: put(ttl)/get/del/cas, "
        "bget/bput/bdel (duplicates, >513 keys and >16 KiB per region for chunking), scan/rscan (limits 0..100, key-only), delrange, checksum "
        "over a 16-key pool that is also the pool of split points (keys on region borders, empty bounds, empty key). Each result line = "
        "verdict of the side's own ordered-map oracle (harness: Go sorted map + direct dump of the mock engine after every write; "
        "model: Spec.OMap) + raw result + the partial requests sent (start:end:limit / batch key lists with `!` for region errors); "
        "the `obs` token (per-request layouts, batch grouping layouts and outcomes, observed by the harness) is the model's layout-sequence input")
    c.assumptions = [
        "the store side is mocktikv as it is (since the fixes C11-1..5 nothing is repaired by the RPC wrapper; C11_MOCKFIX=on or a "
        "`mockfix on` op switches the old repairs back on for a tree without them); five fixed-input cases re-check the repaired mock "
        "defects on every run; the client works in column family CF_DEFAULT because the mock's RawChecksum handler reads only that one",
        "TTL: PutWithTTL is exercised, expiry is not (mocktikv stores no TTL; GetKeyTTL is not handled by the mock)",
        "batch requests run in goroutines: the harness serialises the RPCs and rebuilds the invocation tree from goroutine ids "
        "(`created by … in goroutine N`); which concurrent batch meets an injected topology change first is scheduler dependent, the "
        "observed outcomes are passed to the model",
        "S12 (RawBatchDelete served on a stale epoch by the mock, fixed by C11-5): occurrences are still counted in "
        "input_distribution['note:s12_stale_batch_delete_served'] (expected 0)",
        "limits above MaxRawKVScanLimit, column families, API v2 (C15) and several concurrent clients are not exercised",
    ]


def run(a):
    c = Check(PID, a.tier, a.seed)
    setup(c)
    if facts(c):
        exe = c.build_driver("cgv-c11")
        hbin = c.build_harness("c11")
        if exe and hbin:
            r = c.run_harness(hbin)
            if r:
                ops, impl, st = r
                c.cov["input_distribution"] = st
                m = c.run_model(exe, ops)
                if m:
                    c.diff(ops, impl, m, stateful=True, hbin=hbin, exe=exe, max_report=40, fail_first=True)
                    c.cov["programs"] = 1
                    c.cov["exhaustive"] = False
        c.prove("ClientGoVerif.Props.C11")
    return c.finish()


def replay(a):
    """re-execute the failing cases of a replay file against the current tree and the model"""
    c = Check(PID, a.tier, a.seed)
    setup(c)
    rp = json.load(open(a.replay))
    facts(c)
    exe = c.build_driver("cgv-c11")
    hbin = c.build_harness("c11")
    lines = []
    n = 0
    for p in rp["problems"]:
        if p["kind"] in ("property", "correspondence") and p["case"]:
            n += 1
            lines.append(f"# case {n}")
            lines += p["case"]
    if not (exe and hbin and lines):
        print("nothing to replay (no concrete input in the replay file)")
        return 0 if not c.problems else 1
    f = os.path.join(c.work, "in.replay")
    open(f, "w").write("\n".join(lines) + "\n")
    ops, impl, _ = c.run_harness(hbin, replay=f)
    m = c.run_model(exe, ops)
    for o, i, mm in zip(open(ops).read().splitlines(), open(impl).read().splitlines(), open(m).read().splitlines()):
        print(f"{o[:300]}\n   impl : {i[:300]}\n   model: {mm[:300]}")
    c.diff(ops, impl, m, stateful=True, hbin=hbin, exe=exe, max_report=40, fail_first=True)
    return c.finish()
