"""C09 — region lookups contain their keys, cover ranges without gaps and do not regress (DESIGN §4 C09)."""
import json
import os
import vcheck
from vcheck import Check, Problem

PID = "C09"
EXE = "cgv-c09"
CONSTS = ["defaultRegionsPerBatch"]
MAX_PER_SIGNATURE = 4
MAX_REPORT = 16


def facts(c):
    v = c.facts_consts("internal/locate", CONSTS)
    if v is None:
        return False
    body = "namespace CGV.Gen\n" + "".join(f"def {k} : Nat := {v[k]}\n" for k in CONSTS) + "end CGV.Gen\n"
    c.write_generated("RegionConsts", body)
    return True


def signature(op, impl, model):
    """coarse class of a failing line: op kind + what fails; used only to decide which failing cases get shrunk"""
    kind = op.split()[0] if op.split() else "?"
    if impl.startswith("FAIL"):
        what = " ".join(impl.split()[:2])
    elif impl.startswith("panic"):
        what = "panic"
    else:
        what = "mismatch"
    return f"{kind}/{what}/{'agree' if impl == model else 'differ'}"


def stateful_diff(c, ops_file, impl_file, model_file, hbin, exe):
    """like vcheck.Check.diff(stateful=True), but failing cases are bucketed by signature so that frequent known
    findings cannot crowd a different violation out of the report; every bucket gets shrunk cases"""
    ops = open(ops_file).read().splitlines()
    impl = open(impl_file).read().splitlines()
    model = open(model_file).read().splitlines()
    n = len(ops)
    if not (len(impl) == n and len(model) == n):
        c.problems.append(Problem("tie", f"stream lengths differ ops={n} impl={len(impl)} model={len(model)}"))
        n = min(n, len(impl), len(model))
    real = [i for i in range(n) if not ops[i].startswith("#")]
    cases = vcheck.split_cases(ops[:n])
    c.cov["evaluations"] += len(real)
    c.cov["traces_validated_against_impl"] += len(cases)
    c.cov["distinct_nontrivial"] += len(set(ops[i] for i in real))
    step = max(1, len(real) // 5)
    for i in real[::step][:5]:
        c.cov["samples"].append({"op": ops[i], "impl": impl[i], "model": model[i]})

    def bad(i):
        return impl[i] != model[i] or impl[i].startswith("FAIL") or impl[i].startswith("panic")
    c.cov["disagreements_checked"] += sum(1 for i in real if impl[i] != model[i])
    c.cov["property_op_failures"] = sum(1 for i in real if impl[i].startswith("FAIL") or impl[i].startswith("panic"))
    buckets = {}
    failing_cases = 0
    for (a, b) in cases:
        idx = [i for i in range(a, b) if not ops[i].startswith("#") and bad(i)]
        if not idx:
            continue
        failing_cases += 1
        seen = set()
        for i in idx:   # every distinct kind of failure inside a case gets its own entry (a known one must not mask another)
            sig = signature(ops[i], impl[i], model[i])
            if sig not in seen:
                seen.add(sig)
                buckets.setdefault(sig, []).append((i - a, a, i))
    c.cov["failing_cases"] = failing_cases
    c.cov["failure_signatures"] = {k: len(v) for k, v in buckets.items()}
    reported = 0
    # property failures (FAIL / panic on the implementation) first: they carry the concrete failing input and must not
    # be crowded out of the report by the correspondence mismatches that usually follow them in the same cases
    def is_prop(sig):
        return sig.split('/')[1].startswith('FAIL') or sig.split('/')[1] == 'panic'
    for sig in sorted(buckets, key=lambda g: (not is_prop(g), g)):
        # shortest prefixes first: cheapest to shrink and most likely minimal
        for (_, a, first) in sorted(buckets[sig])[:MAX_PER_SIGNATURE]:
            if reported >= MAX_REPORT:
                break
            reported += 1
            case_ops = [o for o in ops[a:first + 1] if not o.startswith("#")]
            shrunk = shrink_sig(c, case_ops, hbin, exe, sig)
            isprop, det = classify_sig(c, shrunk, hbin, exe, sig)
            c.problems.append(Problem("property" if isprop else "correspondence",
                                      "property oracle fails on the implementation" if isprop else "model and implementation disagree",
                                      shrunk, det))
            c.cov.setdefault("shrunk_cases", []).append({"signature": sig, "case": shrunk, "detail": det})


def failing_line(c, case_ops, hbin, exe, sig):
    """index of the first line of the re-executed case whose failure has signature `sig` (None if there is none)"""
    r = c._run_case(case_ops, hbin, exe, None)
    if r is None:
        return None
    impl, model = r
    if len(impl) != len(model) or len(impl) != len(case_ops):
        return None
    for i, (o, a, b) in enumerate(zip(case_ops, impl, model)):
        if (a != b or a.startswith("FAIL") or a.startswith("panic")) and signature(o, a, b) == sig:
            return i, a, b
    return None


def shrink_sig(c, case_ops, hbin, exe, sig, budget=250):
    """ddmin over op lines; a candidate counts as failing only if it still shows a failure of the same signature"""
    cur = list(case_ops)
    if failing_line(c, cur, hbin, exe, sig) is None:
        return cur
    n, runs = 2, 0
    while len(cur) >= 2 and runs < budget:
        chunk = max(1, len(cur) // n)
        reduced = False
        for s in range(0, len(cur), chunk):
            cand = cur[:s] + cur[s + chunk:]
            runs += 1
            if cand and failing_line(c, cand, hbin, exe, sig) is not None:
                cur, n, reduced = cand, max(n - 1, 2), True
                break
            if runs >= budget:
                break
        if not reduced:
            if chunk == 1:
                break
            n = min(len(cur), n * 2)
    # drop everything after the failing line
    f = failing_line(c, cur, hbin, exe, sig)
    if f is not None:
        cur = cur[:f[0] + 1]
    return cur


def classify_sig(c, case_ops, hbin, exe, sig):
    f = failing_line(c, case_ops, hbin, exe, sig)
    if f is None:
        return False, "not reproducible on re-run"
    i, a, b = f
    return (a.startswith("FAIL") or a.startswith("panic")), f"line {i}: impl: {a} | model: {b}"


def setup(c):
    c.cov["rule"] = ("stateful cases (reset; random initial partition; 24/40 ops): topology ops on mocktikv.Cluster (split/merge/leader/"
                     "addpeer/rmpeer), PD view switches (live or a replayed prefix of the topology history = stale answers), cache ops "
                     "(inval/needreload/gc/newcache/epochnm/updleader) interleaved with loc/locend/locid/range/batch/group/listids on the real "
                     "RegionCache; every lookup line carries the verdict of the property oracle evaluated on that side's own result "
                     "(containment, in-order gap-free cover, grouping, known region, no regression of the index) followed by the raw result; "
                     "`dump` lines compare the ordered index and latestVersions; after every lookup and feedback op the by-id index invariant is evaluated on that side's own state (FAIL latest-index-missing:<id> when the newest held version of an id is not named by latestVersions); every 12th case is the right-derive family (splits after which the surviving id moves its start key, `epochraw <id> <regions…>` = OnRegionEpochNotMatch with an explicit region list in both orders, stale same-version / older-conf-version PD answers); a quarter of the cases start with the directed hole family "
                     "(3..6 regions, cache warmed over the whole key space, need-reload flag or invalidation on one or two MIDDLE regions, then "
                     "batch/range lookups spanning them, also with ranges starting inside the flagged region and under a stale PD view); "
                     "a third of the cases start with a directed family: the hole family or the boundary family (every boundary key of a 3..6 region layout looked up "
                     "by key, by END key and as end/start of range and batch requests, with the region ending there — and sometimes the one starting there — warm, "
                     "need-reload (direct or via OnSendFail), delayed-reload ready, invalidated, TTL run out or GC'd, under live and stale PD views; then a stale "
                     "parent description over dead children, with and without the parent's id known to latestVersions); conv <key> <inval|reload|epochnm>: request attempts against the live PD until the location is the current region (at most one rejected), "
                     "then one more LocateKey that must not reach PD (round trips counted in the harness' PD wrapper); expire/sendfail ops; every 150th case "
                     "sends 2100-2600 request ranges in one BatchLocateKeyRanges call; distinct = distinct op lines")
    c.assumptions = [
        "keys pass through CodecPDClient (memcomparable encoding, ModeTxn); the model works on raw keys (order isomorphism: C19)",
        "mu.regions is modelled as derived from the ordered index (a VerID determines the key range); checked by every dump",
        "PD answers come from mocktikv.Cluster (live or a replayed prefix); BatchScanRegions is answered by the harness from Cluster.ScanRegions per range "
        "because the mock's own BatchScanRegions skips a later unbounded range and miscounts the limit",
        "topology ops follow mocktikv.Cluster as of /repo bd025bf (split: both halves parent epoch with version+1; merge: max(source,target)+1); modelled in Driver/C09.lean only, checked by every topology line",
        "every region has a leader (regions without leader are filtered by design: not covered); TTL expiry by wall clock is represented by invalidation",
        "no-op backoffer: a PD retry round is reported as err",
        "defaultRegionsPerBatch (128) is never reached by the generated topologies: the multi-batch loops are modelled and proved about but not exercised",
    ]


def run(a):
    c = Check(PID, a.tier, a.seed)
    setup(c)
    if facts(c):
        exe = c.build_driver(EXE)
        hbin = c.build_harness("c09")
        if exe and hbin:
            r = c.run_harness(hbin)
            if r:
                ops, impl, st = r
                c.cov["input_distribution"] = st
                m = c.run_model(exe, ops)
                if m:
                    stateful_diff(c, ops, impl, m, hbin, exe)
                    c.cov["programs"] = 1
                    c.cov["exhaustive"] = False
        c.prove("ClientGoVerif.Props.C09")
    return c.finish()


def replay(a):
    """re-execute the failing cases of a replay file against the current tree and the model"""
    c = Check(PID, a.tier, a.seed)
    setup(c)
    rp = json.load(open(a.replay))
    cases = [p["case"] for p in rp["problems"] if p["kind"] in ("property", "correspondence") and p["case"]]
    facts(c)
    exe = c.build_driver(EXE)
    hbin = c.build_harness("c09")
    if not (exe and hbin and cases):
        print("nothing to replay (no concrete input in the replay file)")
        return 0 if not c.problems else 1
    lines = []
    for i, case in enumerate(cases):
        lines.append(f"# case {i}")
        if not case or case[0] != "reset":
            lines.append("reset")
        lines += case
    f = os.path.join(c.work, "in.replay")
    open(f, "w").write("\n".join(lines) + "\n")
    ops, impl, _ = c.run_harness(hbin, replay=f)
    m = c.run_model(exe, ops)
    for o, i, mm in zip(open(ops).read().splitlines(), open(impl).read().splitlines(), open(m).read().splitlines()):
        print(f"{o}\n   impl : {i}\n   model: {mm}")
    stateful_diff(c, ops, impl, m, hbin, exe)
    return c.finish()
