"""C16 — pipelined transactions: reads through the three tiers, flush discipline, resolved range (DESIGN §4 C16)."""
import json
import os
import vcheck
from vcheck import Check, Problem

PID = "C16"
CONSTS = ["MinFlushKeys", "MinFlushMemSize", "ForceFlushMemSizeThreshold"]


def facts(c):
    v = c.facts_consts("internal/unionstore", CONSTS)
    if v is None:
        return False
    body = "namespace CGV.Gen\n" + "".join(f"def {k} : Nat := {v[k]}\n" for k in CONSTS) + "end CGV.Gen\n"
    c.write_generated("PipelinedConsts", body)
    return True


def setup(c):
    c.cov["rule"] = (
        "stateful cases (`# case n bare|txn`, explicit `reset`): correspondence ops set/del/get/bget/flush/flushdone/flushwait/"
        "stage/release/cleanup/commit/rollback (model output == implementation output, incl. the (generation, mutations) each "
        "flush call receives and the regions that get a ResolveLock), property ops chk-read/chk-bget (read = latest write at any "
        "tier), chk-flush (each mutation handed to exactly one flush, generations 1,2,3…, at most one flush function running), "
        "flush/flushwait/commit (a failed flush of any kind — plain error, or an ErrKeyExist chain for a key inside/outside the flushed batch — is reported: FAIL flush-error-swallowed / lost-flush-error otherwise; the error handed back is the translation handleAlreadyExistErr makes), chk-answer (commit point: the primary Commit request is scripted — executed with the answer lost / lost before execution / definite key error / answered — and Commit's answer, classified nil / undetermined / other, must not contradict the store tier's outcome for the primary: FAIL answer-contradicts-outcome / answer-nil-not-committed), chk-tier (every read goes through the pipelined buffer, so none may reach the store as a plain snapshot Get/BatchGet at the transaction's start ts — FAIL tier-dropped; txntier cases: committed data under the keys (reset tokens c:<k>=<v>), writes fully flushed, `split` of the region between flushed keys in the mock cluster only (stale region cache), `buferr notleader|busy` on the next BufferBatchGet, then chk-bget / chk-read), `splitonresolve <key>` (the store splits the region holding the key when the first ResolveLock for it arrives — after the range task was cut, before the request is served: the handler must re-locate and walk on to the end of its task; judged by chk-covered), chk-range (every key sent in a Flush request lies in [pipelinedStart,pipelinedEnd) as the real committer holds them, read through an add-only export), chk-covered (after commit / rollback / the cleanup of a failed commit every flushed key reaches the primary's outcome: it is the committed primary or its region got the ResolveLock, i.e. no lock of the transaction is left). "
        "bare world: real PipelinedMemDB + scripted flush function + harness remote buffer; txn world: real pipelined KVTxn on "
        "mocktikv with Flush/BufferBatchGet/Commit/Broadcast answered by the harness (mocktikv lacks these RPCs), real flush "
        "callback, Commit/Rollback, resolveFlushedLocks, RunOnRange, resolve handler. Thresholds through the existing failpoints; "
        "Mem() of the mutable buffer is an observed input; flush completion is scripted relative to the next writes; "
        "txnrange cases: 2-4 flushes whose smallest keys ascend / descend / interleave, region borders between them, ended by commit / rollback / failed commit; "
        "traces = cases")
    c.assumptions = [
        "Mem() of the mutable MemDB (arena capacities) is not modelled: the value observed on the implementation is an input of the model's needFlush",
        "keys are non-empty and below the memdb entry limits; key flags, key-only entries and locked-in-share-mode keys are not exercised",
        "a blocked `<-errCh` is modelled as: the running flush function returns now with a result given as input (`late`)",
        "txn world: the store side of Flush/BufferBatchGet/Commit is played by the harness; region layout does not change during a case; a failing flush answers every Flush request of that flush with the error and leaves nothing in the remote buffer",
        "throttling sleeps, TTL keep-alive and broadcast-txn-status fan-out are not covered",
    ]


def triage(c, ops_file, impl_file, model_file, hbin, exe, budget_s):
    """stateful diff with shrinking, but failing cases are grouped by signature (first failing op word + verdict words) and
    visited round-robin, so that many hits of one (possibly known) failure cannot hide a different one: at least 3 cases of
    every signature are shrunk, and further ones until the time budget is used up."""
    import time
    c.diff(ops_file, impl_file, model_file, stateful=True, max_report=0)   # counters only
    ops = open(ops_file).read().splitlines()
    impl = open(impl_file).read().splitlines()
    model = open(model_file).read().splitlines()
    n = min(len(ops), len(impl), len(model))
    groups = {}
    for (a, b) in vcheck.split_cases(ops[:n]):
        idx = [i for i in range(a, min(b, n)) if not ops[i].startswith("#") and
               (impl[i] != model[i] or impl[i].startswith("FAIL") or impl[i].startswith("panic"))]
        if not idx:
            continue
        def vd(i):
            return " ".join(impl[i].split()[:2]) if impl[i].startswith(("FAIL", "panic")) else impl[i].split()[0]
        kind = ops[a].split()[-1] if ops[a].startswith("#") else ""
        # a property-op failure anywhere in the case is the concrete failing input (a mere correspondence mismatch earlier
        # in the case must not hide it); every distinct failing verdict of the case gets its own entry: the case up to
        # its first occurrence, without the property ops that fail with another verdict before it
        pf = [i for i in idx if impl[i].startswith(("FAIL", "panic"))]
        if pf:
            seen = set()
            for f in pf:
                if vd(f) in seen:
                    continue
                seen.add(vd(f))
                other = set(i for i in pf if i < f and vd(i) != vd(f))
                sig = (kind, ops[f].split()[0], vd(f), impl[f] == model[f])
                groups.setdefault(sig, []).append(
                    [ops[i] for i in range(a, f + 1) if not ops[i].startswith("#") and i not in other])
        else:
            f = idx[0]
            sig = (kind, ops[f].split()[0], vd(f), impl[f] == model[f])
            groups.setdefault(sig, []).append([o for o in ops[a:f + 1] if not o.startswith("#")])
    c.cov["failing_cases"] = sum(len(v) for v in groups.values())
    c.cov["failing_signatures"] = sorted(" / ".join(map(str, k)) for k in groups)
    for v in groups.values():
        v.sort(key=len)
    t0 = time.time()
    rnd = 0
    shrunk_n = 0
    while any(len(v) > rnd for v in groups.values()):
        for sig, v in sorted(groups.items()):
            if len(v) <= rnd:
                continue
            # every signature is examined at least once (first 40); more cases of a signature while the budget lasts
            if (rnd >= 1 and time.time() - t0 > budget_s) or (rnd == 0 and shrunk_n >= 40):
                continue
            shrunk_n += 1
            case = v[rnd]
            # shrink towards the property failure, not towards any mismatch
            only_prop = sig[2].startswith(("FAIL", "panic"))
            # pre-pass: reads that do not touch the state (get / chk-read) are dropped at once when the case still fails
            slim = [o for o in case[:-1] if o.split()[0] not in ("get", "chk-read", "chk-flush")] + case[-1:]
            if len(slim) < len(case) and c._fails(slim, hbin, exe, None, only_prop):
                case = slim
            shrunk = c.shrink(case, hbin, exe, None, budget=120, only_prop=only_prop)
            # ddmin stops at 1-minimal cases; matching stage/release (or stage/cleanup) pairs only go away together
            tries = 0
            improved = True
            while improved and len(shrunk) > 6 and tries < 150:
                improved = False
                for i in range(1, len(shrunk) - 1):
                    for j in range(i + 1, len(shrunk) - 1):
                        cand = shrunk[:i] + shrunk[i + 1:j] + shrunk[j + 1:]
                        tries += 1
                        if c._fails(cand, hbin, exe, None, only_prop):
                            shrunk, improved = cand, True
                            break
                        if tries >= 150:
                            break
                    if improved or tries >= 150:
                        break
            isprop, det = c.classify_case(shrunk, hbin, exe, None)
            c.problems.append(Problem("property" if isprop else "correspondence",
                                      "property oracle fails on the implementation" if isprop else "model and implementation disagree",
                                      shrunk, det))
        rnd += 1
        if time.time() - t0 > budget_s:
            break


def run(a):
    c = Check(PID, a.tier, a.seed)
    setup(c)
    if facts(c):
        exe = c.build_driver("cgv-c16")
        hbin = c.build_harness("c16")
        if exe and hbin:
            r = c.run_harness(hbin)
            if r:
                ops, impl, st = r
                c.cov["input_distribution"] = st
                m = c.run_model(exe, ops)
                if m:
                    triage(c, ops, impl, m, hbin, exe, 15 if a.tier == "quick" else 120)
                    c.cov["programs"] = 2
                    c.cov["exhaustive"] = False
        c.prove("ClientGoVerif.Props.C16")
    return c.finish()


def replay(a):
    """re-execute the (shrunk) cases of a replay file against the current tree and the model"""
    c = Check(PID, a.tier, a.seed)
    setup(c)
    rp = json.load(open(a.replay))
    cases = [p["case"] for p in rp["problems"] if p["kind"] in ("property", "correspondence") and p["case"]]
    facts(c)
    exe = c.build_driver("cgv-c16")
    hbin = c.build_harness("c16")
    if not (exe and hbin and cases):
        print("nothing to replay (no concrete input in the replay file)")
        return 0 if not c.problems else 1
    f = os.path.join(c.work, "in.replay")
    with open(f, "w") as fh:
        for i, case in enumerate(cases, 1):
            fh.write(f"# case {i} replay\n" + "\n".join(case) + "\n")
    r = c.run_harness(hbin, replay=f)
    if not r:
        return c.finish()
    ops, impl, _ = r
    m = c.run_model(exe, ops)
    if m:
        for o, i, mm in zip(open(ops).read().splitlines(), open(impl).read().splitlines(), open(m).read().splitlines()):
            print(f"{o}\n   impl : {i}\n   model: {mm}")
        triage(c, ops, impl, m, hbin, exe, 60)
    return c.finish()
