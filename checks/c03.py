"""C03 — truthfulness of Commit's answer (DESIGN §4 C03); trace grammar and division of labour: HUB.md."""
from checks.hub_common import run_hub, replay_hub

PID = "C03"
RULE = ("the C02 shapes; at every RPC index of Commit one fault (thorough: sampled pairs) from {drop request, drop response, NotLeader, EpochNotMatch, ServerIsBusy, StaleCommand, split, another client expires the lock and resolves it, a reader pushes min-commit-ts, blackout of all requests / of all responses from that index on}; Commit's result class and, after recovery, the MVCC truth (`audit outcome`, `audit mvcc`) go to the judge; further fault kinds cancel-before / cancel-after (the caller's context of Commit ends at request i); directed triple family (primary-commit answer lost, split inside the primary batch, region errors until the back-off budget ends); pre-history and async-recovery families as in C02; shape kind insdel; round 3: aged family (transaction more than 24 h old — real async commit inside a widened safe window — or seconds old at Commit; without fault, with one random fault, and with a second client meeting the locks (`expire`) and the committer cut off (`blackout-before`) at EVERY request index), commit mode `both`")


def run(a):
    return run_hub(PID, a, RULE)


def replay(a):
    return replay_hub(PID, a, RULE)
