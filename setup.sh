#!/bin/sh
# offline setup: build the facts tool, the Lean library (models, proofs) and all model drivers
set -e
cd "$(dirname "$0")"
mkdir -p .build/bin evidence replays
(cd tools/facts && GOFLAGS=-mod=mod GOPROXY=off go build -o ../../.build/bin/facts .)
(cd lean && lake build 2>&1 | tail -5)
echo setup done
