// facts: re-reads constants (and, per subcommand, tables) from /repo's Go source with go/parser + go/types.
//   facts consts <pkgdir> <name>...      prints "<name> <exact value>" per constant; fails if one is missing
//   facts calls  <file.go> <funcname>    prints one line per call of funcname(...) at package level or anywhere,
//                                        with each argument rendered as source text
//   facts cases  <file.go> <func>        prints the case labels of every switch in the named function
//   facts constsoftype <pkgdir> <Type>   prints "<name> <value>" for every package-level constant of the named type
//   facts maplit <file.go> <varname>     prints "<key src>\t<value src>" per entry of the composite (map) literal that
//                                        initialises the package-level variable; fails if the variable is missing
//   facts varsrc <file.go> <var>         prints the source text of a package-level var initialiser
//   facts casebodies <file.go> <func>    per case clause: labels TAB first statement
//   facts typedconsts <pkgdir> <Type>    every constant of the named type with its value
package main

import (
	"bytes"
	"fmt"
	"go/ast"
	"go/constant"
	"go/importer"
	"go/parser"
	"go/printer"
	"go/token"
	"go/types"
	"os"
	"path/filepath"
	"sort"
	"strings"
)

type fakeImporter struct{ pkgs map[string]*types.Package }

func (f *fakeImporter) Import(path string) (*types.Package, error) {
	if p, ok := f.pkgs[path]; ok {
		return p, nil
	}
	if path == "math" {
		// real constants of package math (math.MaxUint16, math.MaxUint64, ...) so that `const X = math.MaxUint16` resolves
		if rp, err := importer.ForCompiler(token.NewFileSet(), "source", nil).Import(path); err == nil {
			f.pkgs[path] = rp
			return rp, nil
		}
	}
	name := path[strings.LastIndex(path, "/")+1:]
	p := types.NewPackage(path, name)
	if path == "time" {
		// typed duration constants (`500 * time.Millisecond`) must evaluate: provide time.Duration and its units
		dur := types.NewNamed(types.NewTypeName(token.NoPos, p, "Duration", nil), types.Typ[types.Int64], nil)
		p.Scope().Insert(dur.Obj())
		for _, u := range []struct {
			n string
			v int64
		}{{"Nanosecond", 1}, {"Microsecond", 1e3}, {"Millisecond", 1e6}, {"Second", 1e9}, {"Minute", 60e9}, {"Hour", 3600e9}} {
			p.Scope().Insert(types.NewConst(token.NoPos, p, u.n, dur, constant.MakeInt64(u.v)))
		}
	}
	p.MarkComplete()
	f.pkgs[path] = p
	return p, nil
}

func loadPkg(dir string) (*token.FileSet, []*ast.File) {
	fset := token.NewFileSet()
	ents, err := os.ReadDir(dir)
	if err != nil {
		fail("cannot read %s: %v", dir, err)
	}
	var files []*ast.File
	for _, e := range ents {
		n := e.Name()
		if !strings.HasSuffix(n, ".go") || strings.HasSuffix(n, "_test.go") {
			continue
		}
		f, err := parser.ParseFile(fset, filepath.Join(dir, n), nil, parser.SkipObjectResolution)
		if err != nil {
			fail("parse %s: %v", n, err)
		}
		files = append(files, f)
	}
	return fset, files
}

func fail(f string, a ...any) {
	fmt.Fprintf(os.Stderr, "facts: "+f+"\n", a...)
	os.Exit(2)
}

func src(fset *token.FileSet, n ast.Node) string {
	var b bytes.Buffer
	printer.Fprint(&b, fset, n)
	return strings.Join(strings.Fields(b.String()), " ")
}

func main() {
	if len(os.Args) < 3 {
		fail("usage")
	}
	switch os.Args[1] {
	case "consts":
		fset, files := loadPkg(os.Args[2])
		conf := types.Config{Importer: &fakeImporter{pkgs: map[string]*types.Package{}}, Error: func(error) {}, FakeImportC: true}
		pkg, _ := conf.Check("p", fset, files, nil)
		if pkg == nil {
			fail("type check produced nothing")
		}
		for _, name := range os.Args[3:] {
			obj := pkg.Scope().Lookup(name)
			c, ok := obj.(*types.Const)
			if !ok || c.Val().Kind() == constant.Unknown {
				fail("constant %s not found in %s", name, os.Args[2])
			}
			fmt.Printf("%s %s\n", name, c.Val().ExactString())
		}
	case "constsoftype":
		// facts constsoftype <pkgdir> <TypeName>: every package-level constant whose declared type is the named
		// type, in source order: "<name> <exact value>" (aliases such as `CmdA = CmdB` are printed too)
		fset, files := loadPkg(os.Args[2])
		conf := types.Config{Importer: &fakeImporter{pkgs: map[string]*types.Package{}}, Error: func(error) {}, FakeImportC: true}
		pkg, _ := conf.Check("p", fset, files, nil)
		if pkg == nil || len(os.Args) < 4 {
			fail("type check produced nothing")
		}
		type cv struct {
			name string
			pos  token.Pos
			val  string
		}
		var out []cv
		for _, name := range pkg.Scope().Names() {
			c, ok := pkg.Scope().Lookup(name).(*types.Const)
			if !ok || c.Val().Kind() == constant.Unknown {
				continue
			}
			nt, ok := c.Type().(*types.Named)
			if !ok || nt.Obj().Name() != os.Args[3] || nt.Obj().Pkg() != pkg {
				continue
			}
			out = append(out, cv{name, c.Pos(), c.Val().ExactString()})
		}
		if len(out) == 0 {
			fail("no constant of type %s in %s", os.Args[3], os.Args[2])
		}
		for i := 1; i < len(out); i++ {
			for j := i; j > 0 && out[j].pos < out[j-1].pos; j-- {
				out[j], out[j-1] = out[j-1], out[j]
			}
		}
		for _, c := range out {
			fmt.Printf("%s %s\n", c.name, c.val)
		}
	case "calls":
		fset := token.NewFileSet()
		f, err := parser.ParseFile(fset, os.Args[2], nil, parser.SkipObjectResolution)
		if err != nil {
			fail("parse: %v", err)
		}
		want := os.Args[3]
		n := 0
		ast.Inspect(f, func(nd ast.Node) bool {
			vs, ok := nd.(*ast.ValueSpec)
			if !ok {
				return true
			}
			for i, v := range vs.Values {
				ce, ok := v.(*ast.CallExpr)
				if !ok {
					continue
				}
				if src(fset, ce.Fun) != want {
					continue
				}
				var args []string
				for _, a := range ce.Args {
					args = append(args, src(fset, a))
				}
				name := "_"
				if i < len(vs.Names) {
					name = vs.Names[i].Name
				}
				fmt.Printf("%s\t%s\n", name, strings.Join(args, "\t"))
				n++
			}
			return true
		})
		if n == 0 {
			fail("no call of %s in %s", want, os.Args[2])
		}
	case "cases":
		fset := token.NewFileSet()
		f, err := parser.ParseFile(fset, os.Args[2], nil, parser.SkipObjectResolution)
		if err != nil {
			fail("parse: %v", err)
		}
		found := false
		for _, d := range f.Decls {
			fd, ok := d.(*ast.FuncDecl)
			if !ok || fd.Name.Name != os.Args[3] || fd.Body == nil {
				continue
			}
			found = true
			ast.Inspect(fd.Body, func(nd ast.Node) bool {
				cc, ok := nd.(*ast.CaseClause)
				if !ok {
					return true
				}
				var l []string
				for _, e := range cc.List {
					l = append(l, src(fset, e))
				}
				if len(l) == 0 {
					l = []string{"default"}
				}
				fmt.Println(strings.Join(l, "\t"))
				return true
			})
		}
		if !found {
			fail("func %s not found in %s", os.Args[3], os.Args[2])
		}
	case "maplit":
		fset := token.NewFileSet()
		f, err := parser.ParseFile(fset, os.Args[2], nil, parser.SkipObjectResolution)
		if err != nil {
			fail("parse: %v", err)
		}
		found := false
		for _, d := range f.Decls {
			gd, ok := d.(*ast.GenDecl)
			if !ok || gd.Tok != token.VAR {
				continue
			}
			for _, sp := range gd.Specs {
				vs := sp.(*ast.ValueSpec)
				for i, nm := range vs.Names {
					if nm.Name != os.Args[3] || i >= len(vs.Values) {
						continue
					}
					cl, ok := vs.Values[i].(*ast.CompositeLit)
					if !ok {
						fail("variable %s is not initialised by a composite literal", os.Args[3])
					}
					found = true
					fmt.Printf("#type\t%s\n", src(fset, cl.Type))
					for _, e := range cl.Elts {
						kv, ok := e.(*ast.KeyValueExpr)
						if !ok {
							fail("entry of %s is not key: value", os.Args[3])
						}
						fmt.Printf("%s\t%s\n", src(fset, kv.Key), src(fset, kv.Value))
					}
				}
			}
		}
		if !found {
			fail("variable %s not found in %s", os.Args[3], os.Args[2])
		}
	case "callsites":
		// facts callsites <pkgdir> <name>...   every call whose callee is (a selector ending in) one of the names, in the
		// non-test files of the package: "<file>\t<enclosing function (Recv.Name)>\t<callee as written>", sorted
		fset, files := loadPkg(os.Args[2])
		want := map[string]bool{}
		for _, n := range os.Args[3:] {
			want[n] = true
		}
		var out []string
		for _, f := range files {
			fname := filepath.Base(fset.Position(f.Pos()).Filename)
			for _, d := range f.Decls {
				fd, ok := d.(*ast.FuncDecl)
				if !ok || fd.Body == nil {
					continue
				}
				encl := fd.Name.Name
				if fd.Recv != nil && len(fd.Recv.List) > 0 {
					encl = strings.TrimPrefix(src(fset, fd.Recv.List[0].Type), "*") + "." + encl
				}
				ast.Inspect(fd.Body, func(nd ast.Node) bool {
					ce, ok := nd.(*ast.CallExpr)
					if !ok {
						return true
					}
					name := ""
					switch fn := ce.Fun.(type) {
					case *ast.SelectorExpr:
						name = fn.Sel.Name
					case *ast.Ident:
						name = fn.Name
					}
					if want[name] {
						out = append(out, fname+"\t"+encl+"\t"+src(fset, ce.Fun))
					}
					return true
				})
			}
		}
		sort.Strings(out)
		for _, l := range out {
			fmt.Println(l)
		}
	case "funcsrc":
		// prints the normalised source text of a function (or method "Recv.Name") — a change detector
		fset := token.NewFileSet()
		f, err := parser.ParseFile(fset, os.Args[2], nil, parser.SkipObjectResolution)
		if err != nil {
			fail("parse: %v", err)
		}
		for _, d := range f.Decls {
			fd, ok := d.(*ast.FuncDecl)
			if !ok || fd.Name.Name != os.Args[3] {
				continue
			}
			fmt.Println(src(fset, fd))
			return
		}
		fail("func %s not found", os.Args[3])
	case "casebodies":
		// (added for C10) per case clause of every switch in the named function: labels joined by "," TAB first statement
		fset := token.NewFileSet()
		f, err := parser.ParseFile(fset, os.Args[2], nil, parser.SkipObjectResolution)
		if err != nil {
			fail("parse: %v", err)
		}
		found := false
		for _, d := range f.Decls {
			fd, ok := d.(*ast.FuncDecl)
			if !ok || fd.Name.Name != os.Args[3] || fd.Body == nil {
				continue
			}
			found = true
			ast.Inspect(fd.Body, func(nd ast.Node) bool {
				cc, ok := nd.(*ast.CaseClause)
				if !ok {
					return true
				}
				var l []string
				for _, e := range cc.List {
					l = append(l, src(fset, e))
				}
				if len(l) == 0 {
					l = []string{"default"}
				}
				body := ""
				if len(cc.Body) > 0 {
					body = src(fset, cc.Body[0])
				}
				fmt.Printf("%s\t%s\n", strings.Join(l, ","), body)
				return true
			})
		}
		if !found {
			fail("func %s not found in %s", os.Args[3], os.Args[2])
		}
	case "typedconsts":
		// (added for C10) every package-level constant of the named type: "<name> <value>", in source order of value
		fset, files := loadPkg(os.Args[2])
		conf := types.Config{Importer: &fakeImporter{pkgs: map[string]*types.Package{}}, Error: func(error) {}, FakeImportC: true}
		pkg, _ := conf.Check("p", fset, files, nil)
		if pkg == nil {
			fail("type check produced nothing")
		}
		n := 0
		for _, name := range pkg.Scope().Names() {
			c, ok := pkg.Scope().Lookup(name).(*types.Const)
			if !ok {
				continue
			}
			nt, ok := c.Type().(*types.Named)
			if !ok || nt.Obj().Name() != os.Args[3] || c.Val().Kind() == constant.Unknown {
				continue
			}
			fmt.Printf("%s %s\n", name, c.Val().ExactString())
			n++
		}
		if n == 0 {
			fail("no constant of type %s in %s", os.Args[3], os.Args[2])
		}
	case "varsrc":
		// (added for C10) prints the normalised source text of the initialiser of a package-level var, e.g. a map literal
		fset := token.NewFileSet()
		f, err := parser.ParseFile(fset, os.Args[2], nil, parser.SkipObjectResolution)
		if err != nil {
			fail("parse: %v", err)
		}
		for _, d := range f.Decls {
			gd, ok := d.(*ast.GenDecl)
			if !ok || gd.Tok != token.VAR {
				continue
			}
			for _, sp := range gd.Specs {
				vs := sp.(*ast.ValueSpec)
				for i, nm := range vs.Names {
					if nm.Name == os.Args[3] && i < len(vs.Values) {
						fmt.Println(src(fset, vs.Values[i]))
						return
					}
				}
			}
		}
		fail("var %s not found", os.Args[3])
	default:
		fail("unknown subcommand")
	}
}
