// facts: re-reads constants (and, per subcommand, tables) from /repo's Go source with go/parser + go/types.
//   facts consts <pkgdir> <name>...      prints "<name> <exact value>" per constant; fails if one is missing
//   facts calls  <file.go> <funcname>    prints one line per call of funcname(...) at package level or anywhere,
//                                        with each argument rendered as source text
//   facts cases  <file.go> <func>        prints the case labels of every switch in the named function
package main

import (
	"bytes"
	"fmt"
	"go/ast"
	"go/constant"
	"go/importer"
	"go/parser"
	"go/printer"
	"go/token"
	"go/types"
	"os"
	"path/filepath"
	"strings"
)

type fakeImporter struct{ pkgs map[string]*types.Package }

func (f *fakeImporter) Import(path string) (*types.Package, error) {
	if p, ok := f.pkgs[path]; ok {
		return p, nil
	}
	if path == "math" {
		// real constants of package math (math.MaxUint16, math.MaxUint64, ...) so that `const X = math.MaxUint16` resolves
		if rp, err := importer.ForCompiler(token.NewFileSet(), "source", nil).Import(path); err == nil {
			f.pkgs[path] = rp
			return rp, nil
		}
	}
	name := path[strings.LastIndex(path, "/")+1:]
	p := types.NewPackage(path, name)
	p.MarkComplete()
	f.pkgs[path] = p
	return p, nil
}

func loadPkg(dir string) (*token.FileSet, []*ast.File) {
	fset := token.NewFileSet()
	ents, err := os.ReadDir(dir)
	if err != nil {
		fail("cannot read %s: %v", dir, err)
	}
	var files []*ast.File
	for _, e := range ents {
		n := e.Name()
		if !strings.HasSuffix(n, ".go") || strings.HasSuffix(n, "_test.go") {
			continue
		}
		f, err := parser.ParseFile(fset, filepath.Join(dir, n), nil, parser.SkipObjectResolution)
		if err != nil {
			fail("parse %s: %v", n, err)
		}
		files = append(files, f)
	}
	return fset, files
}

func fail(f string, a ...any) {
	fmt.Fprintf(os.Stderr, "facts: "+f+"\n", a...)
	os.Exit(2)
}

func src(fset *token.FileSet, n ast.Node) string {
	var b bytes.Buffer
	printer.Fprint(&b, fset, n)
	return strings.Join(strings.Fields(b.String()), " ")
}

func main() {
	if len(os.Args) < 3 {
		fail("usage")
	}
	switch os.Args[1] {
	case "consts":
		fset, files := loadPkg(os.Args[2])
		conf := types.Config{Importer: &fakeImporter{pkgs: map[string]*types.Package{}}, Error: func(error) {}, FakeImportC: true}
		pkg, _ := conf.Check("p", fset, files, nil)
		if pkg == nil {
			fail("type check produced nothing")
		}
		for _, name := range os.Args[3:] {
			obj := pkg.Scope().Lookup(name)
			c, ok := obj.(*types.Const)
			if !ok || c.Val().Kind() == constant.Unknown {
				fail("constant %s not found in %s", name, os.Args[2])
			}
			fmt.Printf("%s %s\n", name, c.Val().ExactString())
		}
	case "calls":
		fset := token.NewFileSet()
		f, err := parser.ParseFile(fset, os.Args[2], nil, parser.SkipObjectResolution)
		if err != nil {
			fail("parse: %v", err)
		}
		want := os.Args[3]
		n := 0
		ast.Inspect(f, func(nd ast.Node) bool {
			vs, ok := nd.(*ast.ValueSpec)
			if !ok {
				return true
			}
			for i, v := range vs.Values {
				ce, ok := v.(*ast.CallExpr)
				if !ok {
					continue
				}
				if src(fset, ce.Fun) != want {
					continue
				}
				var args []string
				for _, a := range ce.Args {
					args = append(args, src(fset, a))
				}
				name := "_"
				if i < len(vs.Names) {
					name = vs.Names[i].Name
				}
				fmt.Printf("%s\t%s\n", name, strings.Join(args, "\t"))
				n++
			}
			return true
		})
		if n == 0 {
			fail("no call of %s in %s", want, os.Args[2])
		}
	case "cases":
		fset := token.NewFileSet()
		f, err := parser.ParseFile(fset, os.Args[2], nil, parser.SkipObjectResolution)
		if err != nil {
			fail("parse: %v", err)
		}
		found := false
		for _, d := range f.Decls {
			fd, ok := d.(*ast.FuncDecl)
			if !ok || fd.Name.Name != os.Args[3] || fd.Body == nil {
				continue
			}
			found = true
			ast.Inspect(fd.Body, func(nd ast.Node) bool {
				cc, ok := nd.(*ast.CaseClause)
				if !ok {
					return true
				}
				var l []string
				for _, e := range cc.List {
					l = append(l, src(fset, e))
				}
				if len(l) == 0 {
					l = []string{"default"}
				}
				fmt.Println(strings.Join(l, "\t"))
				return true
			})
		}
		if !found {
			fail("func %s not found in %s", os.Args[3], os.Args[2])
		}
	case "funcsrc":
		// prints the normalised source text of a function (or method "Recv.Name") — a change detector
		fset := token.NewFileSet()
		f, err := parser.ParseFile(fset, os.Args[2], nil, parser.SkipObjectResolution)
		if err != nil {
			fail("parse: %v", err)
		}
		for _, d := range f.Decls {
			fd, ok := d.(*ast.FuncDecl)
			if !ok || fd.Name.Name != os.Args[3] {
				continue
			}
			fmt.Println(src(fset, fd))
			return
		}
		fail("func %s not found", os.Args[3])
	default:
		fail("unknown subcommand")
	}
}
