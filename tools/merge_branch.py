#!/usr/bin/env python3
"""git merge <branch> with automatic resolution of the two append-only shared files
(lean/lakefile.toml: union of [[lean_exe]] blocks; known_findings.json: union by id)."""
import json, re, subprocess, sys
br = sys.argv[1]
r = subprocess.run(["git", "merge", "--no-edit", br], capture_output=True, text=True)
print(r.stdout[-600:], r.stderr[-300:])
def show(stage, path):
    return subprocess.run(["git", "show", f":{stage}:{path}"], capture_output=True, text=True).stdout
st = subprocess.run(["git", "status", "--short"], capture_output=True, text=True).stdout
conf = [l[3:] for l in st.splitlines() if l[:2] in ("UU", "AA")]
for path in conf:
    ours, theirs = show(2, path), show(3, path)
    if path == "lean/lakefile.toml":
        head = ours.split("[[lean_exe]]")[0]
        blocks = []
        for txt in (ours, theirs):
            for b in re.findall(r"\[\[lean_exe\]\][^\[]*", txt):
                b = b.strip() + "\n"
                if b not in blocks:
                    blocks.append(b)
        open(path, "w").write(head.rstrip() + "\n\n" + "\n".join(blocks))
    elif path == "known_findings.json":
        a, b = json.loads(ours), json.loads(theirs)
        ids = {x["id"] for x in a}
        a += [x for x in b if x["id"] not in ids]
        json.dump(a, open(path, "w"), indent=1)
    elif path == "tools/facts/main.go":
        import re as _re
        txt = open(path).read()
        txt = _re.sub(r"(?m)^(<<<<<<< .*|=======|>>>>>>> .*)\n", "", txt)   # keep both sides (additive subcommands)
        open(path, "w").write(txt)
    elif path.startswith("evidence/") or path == "MANIFEST.json" or (path.startswith("seeded/") and path.endswith("detection.json")):
        open(path, "w").write(ours)
    else:
        print("UNRESOLVED", path)
        continue
    subprocess.check_call(["git", "add", path])
st = subprocess.run(["git", "status", "--short"], capture_output=True, text=True).stdout
if any(l[:2] in ("UU", "AA") for l in st.splitlines()):
    print("conflicts remain:\n" + st)
    sys.exit(1)
if conf:
    subprocess.check_call(["git", "commit", "-q", "--no-edit"])
# safety net: a branch may itself carry a badly resolved merge
marks = subprocess.run("git grep -n -E '^(<<<<<<< |>>>>>>> )' -- '*.go' '*.lean' '*.py' '*.json' '*.md' '*.sh' || true",
                       shell=True, capture_output=True, text=True).stdout.strip()
if marks:
    print("CONFLICT MARKERS in the tree after merging", br, ":\n" + marks)
    sys.exit(1)
print("merged", br)
