#!/usr/bin/env python3
"""print the markdown table 'seeded change -> which check catches it' from seeded/*/{meta,detection,confirmed}.json"""
import glob, json, os
ROOT = os.path.dirname(os.path.dirname(os.path.abspath(__file__)))
print("| id | property | changed | needs to manifest | confirmed | caught by | concrete input | first report |")
print("|---|---|---|---|---|---|---|---|")
for d in sorted(glob.glob(os.path.join(ROOT, "seeded", "*"))):
    sid = os.path.basename(d)
    try:
        meta = json.load(open(os.path.join(d, "meta.json")))
    except Exception:
        continue
    det = json.load(open(os.path.join(d, "detection.json"))) if os.path.exists(os.path.join(d, "detection.json")) else {}
    conf = json.load(open(os.path.join(d, "confirmed.json"))) if os.path.exists(os.path.join(d, "confirmed.json")) else {}
    ok = all(conf.get(k) for k in ("patch_applies", "builds_with_patch", "demo_fails_with_patch", "existing_tests_of_pkg_pass_with_patch", "demo_passes_without_patch"))
    caught, concrete, first = [], [], ""
    for run, res in det.items():
        for c, r in res.items():
            if r.get("caught"):
                tag = f"{c} ({run.split('-')[0]})"
                if tag not in caught:
                    caught.append(tag)
                if r.get("concrete_input"):
                    concrete.append(c)
                if not first and r.get("first_problems"):
                    first = r["first_problems"][0]
    first = first.replace("|", "/")[:110]
    what = (meta.get("file") or "").split(" (")[0]
    needs = (meta.get("needs_to_manifest") or "").replace("|", "/")
    needs = needs[:140] + ("…" if len(needs) > 140 else "")
    if meta.get("superseded_by_fix"):
        first = "SUPERSEDED by /repo fix " + meta["superseded_by_fix"][:160]
    print(f"| {sid} | {meta.get('property')} | `{what}` | {needs} | {'yes' if ok else 'NO'} | {', '.join(caught) or 'MISSED'} | {'yes' if concrete else 'no'} | {first} |")
