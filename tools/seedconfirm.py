#!/usr/bin/env python3
"""Independent confirmation of a seeded change (seeded/<id>/): in a scratch worktree of /repo's HEAD
  1. the patch applies and the repository builds,
  2. the demonstration FAILS with the patch,
  3. the existing tests of the package the demonstration lives in still PASS with the patch (demo removed),
  4. the demonstration PASSES without the patch.
Writes seeded/<id>/confirmed.json and removes the worktree."""
import glob, json, os, re, shutil, subprocess, sys, time

ENV = dict(os.environ, GOFLAGS="-mod=mod", GOPROXY="off")


def sh(cmd, cwd=None, timeout=1500):
    try:
        p = subprocess.run(cmd, cwd=cwd, env=ENV, stdout=subprocess.PIPE, stderr=subprocess.STDOUT, text=True, errors="replace", timeout=timeout)
        return p.returncode, p.stdout
    except subprocess.TimeoutExpired:
        return 124, "timeout"


def main():
    d = os.path.abspath(sys.argv[1])
    sid = os.path.basename(d)
    notes = ""
    for n in ("NOTE.txt", "RUN.txt", "DEMO_NOTE.txt"):
        if os.path.exists(os.path.join(d, n)):
            notes += open(os.path.join(d, n)).read() + "\n"
    m = re.search(r"-run\s+'?\"?([A-Za-z0-9_/^$|]+)'?\"?\s+(\./[A-Za-z0-9_/.\-]+)", notes)
    sub = ""
    if not m:
        # a demonstration inside a nested module: "cd integration_tests && ... go test -run X ."
        m2 = re.search(r"cd\s+([A-Za-z0-9_/.\-]+)\s+&&.*-run\s+'?\"?([A-Za-z0-9_/^$|]+)'?\"?\s+\.(\s|$)", notes)
        if not m2:
            print(sid, "cannot parse run command"); sys.exit(2)
        sub, run, pkg = m2.group(1), m2.group(2), "."
    else:
        run, pkg = m.group(1), m.group(2).rstrip("/")
    demos = [f for f in glob.glob(os.path.join(d, "*_test.go"))]
    wt0 = f"/tmp/seedconfirm-{sid}-{os.getpid()}"
    subprocess.run(["git", "-C", "/repo", "worktree", "add", "--detach", wt0, "HEAD"], stdout=subprocess.DEVNULL, stderr=subprocess.DEVNULL)
    res = {"head": subprocess.run(["git", "-C", "/repo", "rev-parse", "--short", "HEAD"], capture_output=True, text=True).stdout.strip(),
           "demo_run": (f"cd {sub} && " if sub else "") + f"go test -count=1 -run {run} {pkg}"}
    wt = os.path.join(wt0, sub) if sub else wt0
    try:
        rc, out = sh(["git", "apply", os.path.join(d, "patch.diff")], cwd=wt0)
        res["patch_applies"] = rc == 0
        if rc != 0:
            res["error"] = out[-500:]
            return res
        rc, out = sh(["go", "build", "./..."], cwd=wt)
        res["builds_with_patch"] = rc == 0
        for f in demos:
            shutil.copy(f, os.path.join(wt, pkg))
        rc, out = sh(["go", "test", "-count=1", "-run", run, pkg], cwd=wt)
        res["demo_fails_with_patch"] = rc != 0
        res["demo_fail_excerpt"] = "\n".join([l for l in out.splitlines() if "FAIL" in l or "Error" in l or "panic" in l][:4])[:600]
        for f in demos:
            os.remove(os.path.join(wt, pkg, os.path.basename(f)))
        t0 = time.time()
        # ./tikv: the TestKV suite panics in this sandbox on the unchanged tree too (not part of the stable baseline)
        skip = ["-skip", "^TestKV$"] if pkg.rstrip("/") == "./tikv" else []
        rc, out = sh(["go", "test", "-count=1"] + skip + [pkg], cwd=wt)
        res["existing_tests_of_pkg_pass_with_patch"] = rc == 0
        if skip:
            res["existing_tests_note"] = "run with -skip ^TestKV$ (that suite panics on the unchanged tree in this sandbox)"
        res["existing_tests_wall_s"] = round(time.time() - t0, 1)
        if rc != 0:
            res["existing_tests_excerpt"] = "\n".join([l for l in out.splitlines() if l.startswith("--- FAIL") or l.startswith("FAIL") or "panic:" in l][:6])
        sh(["git", "apply", "-R", os.path.join(d, "patch.diff")], cwd=wt0)
        for f in demos:
            shutil.copy(f, os.path.join(wt, pkg))
        rc, out = sh(["go", "test", "-count=1", "-run", run, pkg], cwd=wt)
        res["demo_passes_without_patch"] = rc == 0
        return res
    finally:
        subprocess.run(["git", "-C", "/repo", "worktree", "remove", "--force", wt0], stdout=subprocess.DEVNULL, stderr=subprocess.DEVNULL)
        json.dump(res, open(os.path.join(d, "confirmed.json"), "w"), indent=1)
        ok = all(res.get(k) for k in ("patch_applies", "builds_with_patch", "demo_fails_with_patch",
                                       "existing_tests_of_pkg_pass_with_patch", "demo_passes_without_patch"))
        print(sid, "CONFIRMED" if ok else "NOT-CONFIRMED", {k: v for k, v in res.items() if isinstance(v, bool)})


if __name__ == "__main__":
    main()
