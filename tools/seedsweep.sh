#!/bin/sh
# runs every seeded change against its property's check on several seeds and prints a matrix
# usage: tools/seedsweep.sh [seeds...]   (default: 1 2 3)
cd "$(dirname "$0")/.."
SEEDS="${@:-1 2 3}"
for d in seeded/*/; do
  id=$(basename "$d")
  [ -f "$d/meta.json" ] || continue
  line="$id"
  for s in $SEEDS; do
    r=$(python3 tools/seedtest.py "$d" --seed "$s" 2>&1 | tail -1)
    case "$r" in
      *CAUGHT*no-failing-input-found*) v="corr" ;;
      *CAUGHT*) v="CONC" ;;
      *missed*) v="MISS" ;;
      *) v="ERR" ;;
    esac
    line="$line seed$s=$v"
  done
  echo "$line"
done
