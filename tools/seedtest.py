#!/usr/bin/env python3
"""Run the registered checks against a seeded change (seeded/<id>/patch.diff) and record which checks catch it.

  tools/seedtest.py seeded/<id> [--checks C19,C15] [--tier quick|thorough] [--in-place]

Default: the patch is applied in a scratch git worktree of /repo (removed afterwards) and the checks run with
VERIF_REPO pointing at it, so /repo itself and other runs using it are not disturbed.  --in-place applies it to /repo
(`git -C /repo apply`) and undoes it afterwards (`git -C /repo checkout -- .`), exactly as the brief describes.
Regenerated facts under lean/ClientGoVerif/Generated are restored afterwards by re-running nothing: the next real run
rewrites them from /repo (they are regenerated on every run)."""
import argparse, json, os, subprocess, sys, time

ROOT = os.path.dirname(os.path.dirname(os.path.abspath(__file__)))


def sh(cmd, **kw):
    return subprocess.run(cmd, stdout=subprocess.PIPE, stderr=subprocess.STDOUT, text=True, **kw)


def main():
    ap = argparse.ArgumentParser()
    ap.add_argument("dir")
    ap.add_argument("--checks", default=None)
    ap.add_argument("--tier", default="quick")
    ap.add_argument("--seed", default="1")
    ap.add_argument("--in-place", action="store_true")
    a = ap.parse_args()
    d = os.path.abspath(a.dir)
    meta = json.load(open(os.path.join(d, "meta.json")))
    checks = (a.checks.split(",") if a.checks else [meta["property"]])
    patch = os.path.join(d, "patch.diff")
    wt = None
    env = dict(os.environ)
    if a.in_place:
        r = sh(["git", "-C", "/repo", "apply", patch])
        if r.returncode != 0:
            print("patch does not apply:", r.stdout)
            sys.exit(2)
    else:
        wt = f"/tmp/seedtest-{os.path.basename(d)}-{os.getpid()}"
        sh(["git", "-C", "/repo", "worktree", "add", "--detach", wt, "HEAD"])
        r = sh(["git", "-C", wt, "apply", patch])
        if r.returncode != 0:
            print("patch does not apply:", r.stdout)
            sh(["git", "-C", "/repo", "worktree", "remove", "--force", wt])
            sys.exit(2)
        env["VERIF_REPO"] = wt
    results = {}
    try:
        for c in checks:
            t0 = time.time()
            r = sh([os.path.join(ROOT, "check"), c, "--tier", a.tier, "--seed", a.seed], cwd=ROOT, env=env)
            viol = [l for l in r.stdout.splitlines() if l.startswith("VIOLATION")]
            detail = [l.strip() for l in r.stdout.splitlines() if l.strip().startswith("[")][:4]
            results[c] = {"exit": r.returncode, "violation_line": viol[:1], "first_problems": detail,
                          "wall_s": round(time.time() - t0, 1),
                          "caught": r.returncode == 1 and bool(viol),
                          "concrete_input": bool(viol) and "no-failing-input-found" not in viol[0]}
            print(c, "CAUGHT" if results[c]["caught"] else "missed", viol[:1], detail[:1])
    finally:
        if a.in_place:
            sh(["git", "-C", "/repo", "checkout", "--", "."])
        else:
            sh(["git", "-C", "/repo", "worktree", "remove", "--force", wt])
        # put the regenerated facts back to the unchanged tree's values
        sh(["git", "-C", ROOT, "checkout", "--", "lean/ClientGoVerif/Generated", "evidence"])
    out = os.path.join(d, "detection.json")
    prev = json.load(open(out)) if os.path.exists(out) else {}
    prev[f"{a.tier}-seed{a.seed}"] = results
    json.dump(prev, open(out, "w"), indent=1)


if __name__ == "__main__":
    main()
