#!/usr/bin/env python3
"""assemble MANIFEST.json from manifest.d/*.json (checks) and manifest.d/_not_applicable.json"""
import glob, json, os
ROOT = os.path.dirname(os.path.dirname(os.path.abspath(__file__)))
checks = []
for f in sorted(glob.glob(os.path.join(ROOT, "manifest.d", "C*.json"))):
    checks.append(json.load(open(f)))
claimed = {c["property_id"] for c in checks}
na_path = os.path.join(ROOT, "manifest.d", "_not_applicable.json")
na_all = json.load(open(na_path)) if os.path.exists(na_path) else []
props = [json.loads(l)["id"] for l in open(os.path.join(ROOT, "properties.jsonl"))]
na = [n for n in na_all if n["property_id"] not in claimed]
have = {n["property_id"] for n in na}
for p in props:
    if p not in claimed and p not in have:
        na.append({"property_id": p, "reason": "not yet built in this framework (see DESIGN.md §7 for the order of work); no other technique is substituted"})
na.sort(key=lambda n: n["property_id"])
m = {
 "version": 1,
 "setup_cmd": "./setup.sh",
 "hooks": {
  "guard": "verif",
  "enable": "cd /repo && GOFLAGS=-mod=mod GOPROXY=off go build -tags verif -overlay /verif/.build/overlay-<pid>.json ./verifx/<harness>   (overlay maps /verif/harness/** into the module; /repo itself carries no hook commits)",
  "baseline_off_cmd": "/verif/tools/baseline.sh   # = for m in . ./integration_tests: (cd /repo/$m && GOFLAGS=-mod=mod GOPROXY=off go test -json -vet=off -count=1 -timeout 25m ./...), compared with /root/.vp/BASELINE.json stable_pass; /repo carries no hook code, so the guard is off by construction",
  "source_commits": [],
  "add_only": True
 },
 "engines": [
  {"name": "lean-proof+differential", "path": "/verif/check", "serves_properties": sorted(claimed),
   "kind_free_text": "Lean 4 theorems about hand-written executable models (lean/), tied to /repo by a Go harness (harness/, built inside /repo's module with go build -overlay, tag verif) that runs the real code and the compiled Lean model on the same op lines and diffs them, plus constants/tables regenerated from the Go source on every run"}
 ],
 "checks": checks,
 "not_applicable": na,
 "notes": "Single entry point ./check <Cxx> --tier quick|thorough [--seed N | VERIF_SEED]. Known findings: known_findings.json. See DESIGN.md."
}
json.dump(m, open(os.path.join(ROOT, "MANIFEST.json"), "w"), indent=1)
print("claimed", sorted(claimed), "not_applicable", [n["property_id"] for n in na])
