#!/bin/sh
# runs the repository's stable baseline with the verif guard OFF and compares with /root/.vp/BASELINE.json
# usage: tools/baseline.sh [outdir]
OUT=${1:-/root/baseline}
mkdir -p "$OUT"
: > "$OUT/gotest.json"
for m in . ./integration_tests; do
  (cd /repo/$m && GOFLAGS=-mod=mod GOPROXY=off go test -json -vet=off -count=1 -timeout 25m ./... >> "$OUT/gotest.json" 2>"$OUT/stderr.$(echo $m | tr '/.' '__').log")
done
python3 - "$OUT/gotest.json" <<'PY'
import json, sys
res = {}
for l in open(sys.argv[1]):
    try:
        e = json.loads(l)
    except Exception:
        continue
    if e.get("Test") and e.get("Action") in ("pass", "fail", "skip"):
        res[e["Package"] + "::" + e["Test"]] = e["Action"]
b = json.load(open("/root/.vp/BASELINE.json"))
bad = [t for t in b["stable_pass"] if res.get(t) != "pass"]
print("stable_pass:", len(b["stable_pass"]), "not passing now:", len(bad))
for t in bad[:40]:
    print("  ", t, res.get(t))
sys.exit(1 if bad else 0)
PY
