"""Common machinery of every check (see DESIGN.md §1.3).

A check = (1) regenerate facts from /repo, (2) build the Lean model driver and the property theorems,
audit axioms, (3) build the Go harness from /repo's working tree through an overlay, run implementation
and model on the same op lines and diff, (4) triage: property-op failures are concrete failing inputs,
anything else that no longer checks is reported with `no-failing-input-found`, (5) write evidence.
"""
import hashlib
import json
import os
import re
import shutil
import subprocess
import sys
import time

ROOT = os.path.dirname(os.path.dirname(os.path.abspath(__file__)))
REPO = os.environ.get("VERIF_REPO", "/repo")
LEAN = os.path.join(ROOT, "lean")
BUILD = os.path.join(ROOT, ".build")
BIN = os.path.join(BUILD, "bin")
ALLOWED_AXIOMS = {"propext", "Classical.choice", "Quot.sound"}
FORBIDDEN = re.compile(r"\bsorry\b|\badmit\b|^axiom |native_decide|bv_decide|implemented_by|unsafe |maxHeartbeats 0|\bsorryAx\b")
TRUSTED_BASE = [
    "Lean 4.33.0 kernel (thorough tier: leanchecker re-check of the compiled .olean files)",
    "axioms allowed: propext, Classical.choice, Quot.sound (audited per theorem with #print axioms); no native_decide, no bv_decide",
    "Lean compiler/runtime for the executable model driver (same definitions the theorems are about)",
    "the Go harness, its canonicalisation, the facts extractor (tools/facts) and lib/vcheck.py",
    "the Go code is modelled, not verified: theorems are about the Lean model; agreement with /repo is checked on the explored inputs only",
]


def goenv():
    e = dict(os.environ)
    e["GOFLAGS"] = "-mod=mod"
    e["GOPROXY"] = "off"
    e.pop("GOTOOLCHAIN", None) if e.get("GOTOOLCHAIN") == "local" else None
    e.pop("GOSUMDB", None) if e.get("GOSUMDB") == "off" else None
    return e


def sh(cmd, cwd=None, env=None, timeout=None, stdin=None):
    p = subprocess.run(cmd, cwd=cwd, env=env, timeout=timeout, stdin=stdin,
                       stdout=subprocess.PIPE, stderr=subprocess.STDOUT, text=True)
    return p.returncode, p.stdout


class Problem:
    """something that no longer checks. kind: 'property' (concrete failing input on the implementation),
    'correspondence' (model and implementation differ), 'proof' (theorem/build/audit), 'tie' (facts/harness build)"""

    def __init__(self, kind, what, case=None, detail="", fails=None):
        self.kind = kind
        self.what = what
        self.case = case or []   # op lines (shrunk) or names
        self.detail = detail
        self.fails = fails or []  # judge mode: every FAIL verdict of the case (a known finding must explain all of them)

    def to_json(self):
        return {"kind": self.kind, "what": self.what, "case": self.case, "detail": self.detail[:4000]}


class Check:
    def __init__(self, pid, tier, seed):
        self.pid = pid
        self.tier = tier
        self.seed = seed
        self.t0 = time.time()
        self.problems = []
        self.cov = {"obligations": 0, "discharged": 0, "checker_cmd": "", "trusted_base": list(TRUSTED_BASE),
                    "programs": 0, "traces_validated_against_impl": 0, "disagreements_checked": 0,
                    "evaluations": 0, "distinct_nontrivial": 0, "samples": [], "rule": "", "theorems": [],
                    "input_distribution": {}}
        self.assumptions = []
        os.makedirs(BIN, exist_ok=True)
        os.makedirs(os.path.join(ROOT, "evidence"), exist_ok=True)
        os.makedirs(os.path.join(ROOT, "replays"), exist_ok=True)
        self.work = os.path.join(BUILD, "work", f"{pid}-{tier}-{os.getpid()}")
        shutil.rmtree(self.work, ignore_errors=True)
        os.makedirs(self.work)

    # ---------------------------------------------------------------- facts
    def facts_consts(self, pkgdir, names):
        """returns {name: int}; a missing constant is a 'tie' problem (never a silent default)"""
        facts_bin = ensure_facts_tool()
        rc, out = sh([facts_bin, "consts", os.path.join(REPO, pkgdir)] + names)
        if rc != 0:
            self.problems.append(Problem("tie", f"facts extractor: constants of {pkgdir}", names, out))
            return None
        res = {}
        for l in out.splitlines():
            k, v = l.split(" ", 1)
            res[k] = v
        return res

    def facts_raw(self, args):
        facts_bin = ensure_facts_tool()
        rc, out = sh([facts_bin] + args)
        if rc != 0:
            self.problems.append(Problem("tie", "facts extractor: " + " ".join(args), args, out))
            return None
        return out

    def write_generated(self, name, body):
        path = os.path.join(LEAN, "ClientGoVerif", "Generated", name + ".lean")
        text = ("-- GENERATED from /repo by the facts extractor on every run — do not edit\n" + body)
        old = open(path).read() if os.path.exists(path) else None
        if old != text:
            with open(path, "w") as f:
                f.write(text)

    # ---------------------------------------------------------------- lean
    def lake(self, targets):
        with LakeLock():
            rc, out = sh(["lake", "build"] + targets, cwd=LEAN)
        return rc, out

    def build_driver(self, exe):
        rc, out = self.lake([exe])
        if rc != 0:
            self.problems.append(Problem("proof", f"model driver {exe} does not build against regenerated facts", [exe], out[-3000:]))
            return None
        return os.path.join(LEAN, ".lake", "build", "bin", exe)

    def prove(self, module):
        """build Props module, forbid sorry & co, audit axioms of each theorem listed in it"""
        path = os.path.join(LEAN, module.replace(".", "/") + ".lean")
        srcs = lean_sources_of(module)
        thms = theorem_names(path)
        self.cov["obligations"] += len(thms)
        self.cov["theorems"] += thms
        self.cov["checker_cmd"] = (f"lake build {module} && lake env lean <#print axioms on {len(thms)} theorems>"
                                   + (" && lake env leanchecker " + module if self.tier == "thorough" else ""))
        bad_src = []
        for s in srcs:
            for i, line in enumerate(strip_comments(open(s).read()).splitlines(), 1):
                if FORBIDDEN.search(line):
                    bad_src.append(f"{os.path.relpath(s, LEAN)}:{i}: {line.strip()}")
        if bad_src:
            self.problems.append(Problem("proof", "forbidden construct in Lean sources", bad_src, "\n".join(bad_src)))
            return
        rc, out = self.lake([module])
        if rc != 0:
            failing = sorted(set(re.findall(r"error: ([^\n]*)", out)))[:10]
            self.problems.append(Problem("proof", f"lake build {module} failed: theorems no longer check", failing, out[-4000:]))
            return
        if "declaration uses 'sorry'" in out or "declaration uses `sorry`" in out:
            self.problems.append(Problem("proof", "a declaration uses sorry", [], out[-2000:]))
            return
        audit = os.path.join(self.work, "Audit.lean")
        with open(audit, "w") as f:
            f.write(f"import {module}\n")
            for t in thms:
                f.write(f"#print axioms {t}\n")
        with LakeLock():
            rc, out = sh(["lake", "env", "lean", audit], cwd=LEAN)
        if rc != 0:
            self.problems.append(Problem("proof", "axiom audit failed to run", [], out[-3000:]))
            return
        ok = 0
        blocks = re.split(r"(?m)^(?=')", out)
        seen = {}
        for b in blocks:
            m = re.match(r"'([^']+)' (depends on axioms: \[([^\]]*)\]|does not depend on any axioms)", b.replace("\n", " "))
            if not m:
                continue
            axs = set(a.strip() for a in (m.group(3) or "").split(",") if a.strip())
            seen[m.group(1)] = axs
        for t in thms:
            if t in seen and seen[t] <= ALLOWED_AXIOMS:
                ok += 1
            else:
                self.problems.append(Problem("proof", f"theorem {t}: axioms {sorted(seen.get(t, ['<not printed>']))}", [t]))
        self.cov["discharged"] += ok
        if self.tier == "thorough":
            with LakeLock():
                rc, out = sh(["lake", "env", "leanchecker", module], cwd=LEAN, timeout=1800)
            self.cov["leanchecker"] = "ok" if rc == 0 else "FAILED"
            if rc != 0:
                self.problems.append(Problem("proof", f"leanchecker rejected {module}", [module], out[-3000:]))

    # ---------------------------------------------------------------- go harness
    def build_harness(self, name):
        ov = make_overlay()
        out_bin = os.path.join(BIN, f"h-{name}-{os.getpid()}")
        rc, out = sh(["go", "build", "-tags", "verif", "-overlay", ov, "-o", out_bin, f"./verifx/{name}"],
                     cwd=REPO, env=goenv(), timeout=1200)
        if rc != 0:
            self.problems.append(Problem("tie", f"harness {name} does not build against /repo's working tree", [name], out[-4000:]))
            return None
        self._tmpbins = getattr(self, "_tmpbins", []) + [out_bin]
        return out_bin

    def run_harness(self, hbin, extra=None, replay=None, tag="run", timeout=None):
        # a harness that hangs (a change to /repo can make the real code loop) must end the check, not stall it
        if timeout is None:
            timeout = 2400 if self.tier == "thorough" else 600
        ops = os.path.join(self.work, f"{tag}.ops")
        impl = os.path.join(self.work, f"{tag}.impl")
        stats = os.path.join(self.work, f"{tag}.stats")
        cmd = [hbin, "-seed", str(self.seed), "-tier", self.tier, "-ops", ops, "-impl", impl, "-stats", stats]
        if replay:
            cmd += ["-replay", replay]
        cmd += extra or []
        env = goenv()
        env.setdefault("GOMEMLIMIT", "8GiB")
        try:
            rc, out = sh(cmd, env=env, timeout=timeout)
            if rc < 0 and not out.strip():
                # killed by a signal from outside without having said anything (e.g. the kernel's OOM killer under load):
                # not something the code under test did; run it once more before drawing any conclusion
                self.cov["harness_rerun_after_signal"] = self.cov.get("harness_rerun_after_signal", 0) + 1
                rc, out = sh(cmd, env=env, timeout=timeout)
        except subprocess.TimeoutExpired:
            self.problems.append(Problem("tie", f"harness did not finish within {timeout}s (the implementation hangs or loops on some input)",
                                         [" ".join(cmd)], "timeout"))
            return None
        if rc != 0:
            self.problems.append(Problem("tie", f"harness crashed (exit status {rc})", [" ".join(cmd)], out[-4000:]))
            return None
        st = {}
        try:
            st = json.load(open(stats))
        except Exception:
            pass
        return ops, impl, st

    def run_model(self, exe, ops_file, tag="run", args=None, timeout=3600):
        model = os.path.join(self.work, f"{tag}.model")
        with open(ops_file) as fin, open(model, "w") as fout:
            p = subprocess.run([exe] + (args or []), stdin=fin, stdout=fout, stderr=subprocess.PIPE, timeout=timeout)
        if p.returncode != 0:
            self.problems.append(Problem("tie", "model driver crashed", [exe], p.stderr.decode()[-2000:]))
            return None
        return model

    def diff(self, ops_file, impl_file, model_file, stateful=False, hbin=None, exe=None, exe_args=None, max_report=8,
             prefer_property=False, fail_first=False):
        """line-by-line comparison. Pure (stateless) streams: a differing line is its own minimal case.
        Stateful streams are split into cases by '# case' comment lines and shrunk by delta debugging.
        prefer_property (stateful only): when a case contains a property-op failure on the implementation (FAIL/panic)
        after an earlier plain mismatch, cut the case after the failure and shrink towards the failure, so that the
        report carries a concrete failing input instead of `no-failing-input-found`."""
        ops = open(ops_file).read().splitlines()
        impl = open(impl_file).read().splitlines()
        model = open(model_file).read().splitlines()
        n = len(ops)
        if not (len(impl) == n and len(model) == n):
            self.problems.append(Problem("tie", f"stream lengths differ ops={n} impl={len(impl)} model={len(model)}"))
            n = min(n, len(impl), len(model))
        real = [i for i in range(n) if not ops[i].startswith("#")]
        self.cov["evaluations"] += len(real)
        self.cov["traces_validated_against_impl"] += len(real) if not stateful else sum(1 for o in ops if o.startswith("# case"))
        distinct = set(ops[i] for i in real)
        self.cov["distinct_nontrivial"] += len(distinct)
        if len(self.cov["samples"]) < 6:
            step = max(1, len(real) // 5)
            for i in real[::step][:5]:
                self.cov["samples"].append({"op": ops[i], "impl": impl[i], "model": model[i]})
        bad = [i for i in real if impl[i] != model[i]]
        propfail = [i for i in real if impl[i].startswith("FAIL") or impl[i].startswith("panic")]
        self.cov["disagreements_checked"] += len(bad)
        self.cov["property_op_failures"] = self.cov.get("property_op_failures", 0) + len(propfail)
        if not stateful:
            seen = set()
            for i in propfail:
                key = canon_key(ops[i])
                if key in seen:
                    continue
                seen.add(key)
                if len(seen) <= 200:
                    self.problems.append(Problem("property", "property oracle fails on the implementation",
                                                 [ops[i]], f"impl: {impl[i]} | model: {model[i]}"))
            seenc = set()
            for i in bad:
                if i in propfail:
                    continue
                key = canon_key(ops[i])
                if key in seenc:
                    continue
                seenc.add(key)
                if len(seenc) <= 50:
                    self.problems.append(Problem("correspondence", "model and implementation disagree",
                                                 [ops[i]], f"impl: {impl[i]} | model: {model[i]}"))
            return
        # stateful: group by case
        cases = split_cases(ops)
        if fail_first:
            # (optional) report cases in which the implementation's own property oracle failed before mere
            # correspondence mismatches, cut them at the first FAIL line and keep a FAIL line while shrinking
            def has_fail(ab):
                return any(impl[i].startswith("FAIL") or impl[i].startswith("panic") for i in range(ab[0], ab[1]))
            cases = sorted(cases, key=lambda ab: 0 if has_fail(ab) else 1)
        reported = 0
        for (a, b) in cases:
            idx = [i for i in range(a, b) if (impl[i] != model[i] or impl[i].startswith("FAIL") or impl[i].startswith("panic")) and not ops[i].startswith("#")]
            if not idx:
                continue
            if reported >= max_report:
                continue
            reported += 1
            first = idx[0]
            only_prop = False
            if prefer_property or fail_first:
                pf = [i for i in idx if impl[i].startswith("FAIL") or impl[i].startswith("panic")]
                if pf:
                    first = pf[0]
                    only_prop = True
            case_ops = [o for o in ops[a:first + 1] if not o.startswith("#")]
            shrunk = case_ops
            if hbin and exe:
                # a case in which the implementation's own oracle failed is shrunk with "the oracle still fails" as
                # the predicate, so that a concrete failing input is not reduced to a mere correspondence mismatch
                only_prop = only_prop or impl[first].startswith("FAIL") or impl[first].startswith("panic")
                shrunk = self.shrink(case_ops, hbin, exe, exe_args, only_prop=only_prop)
            isprop, det = self.classify_case(shrunk, hbin, exe, exe_args) if hbin and exe else (impl[first].startswith("FAIL") or impl[first].startswith("panic"), f"impl: {impl[first]} | model: {model[first]}")
            self.problems.append(Problem("property" if isprop else "correspondence",
                                         "property oracle fails on the implementation" if isprop else "model and implementation disagree",
                                         shrunk, det))

    def diff_judge(self, ops_file, model_file, max_report=8):
        """judge mode (HUB.md): the op stream is a recorded trace of the implementation; the Lean judge answers
        `ok`, `MISMATCH …` (model store disagrees with the recorded answer: correspondence) or `FAIL …` (a property
        rule/oracle is violated by the recorded execution: concrete failing input = the trace up to that event)."""
        ops = open(ops_file).read().splitlines()
        model = open(model_file).read().splitlines()
        n = min(len(ops), len(model))
        if len(ops) != len(model):
            self.problems.append(Problem("tie", f"stream lengths differ ops={len(ops)} judge={len(model)}"))
        real = [i for i in range(n) if not ops[i].startswith("#")]
        self.cov["evaluations"] += len(real)
        self.cov["distinct_nontrivial"] += len(set(ops[i] for i in real))
        cases = split_cases(ops[:n])
        self.cov["traces_validated_against_impl"] += len(cases)
        if len(self.cov["samples"]) < 6 and real:
            a, b = cases[0]
            self.cov["samples"].append({"trace_head": ops[a:min(b, a + 25)]})
        reported = {"property": 0, "correspondence": 0}
        for (a, b) in cases:
            bad = [i for i in range(a, b) if not ops[i].startswith("#") and model[i] != "ok"]
            if not bad:
                continue
            self.cov["disagreements_checked"] += len(bad)
            fails = [i for i in bad if model[i].startswith("FAIL")]
            first = fails[0] if fails else bad[0]
            kind = "property" if fails else "correspondence"
            if reported[kind] >= max_report:
                continue
            reported[kind] += 1
            trace = [o for o in ops[a:first + 1] if not o.startswith("#")]
            self.problems.append(Problem(kind,
                                         "the recorded execution violates a rule/oracle of the property" if fails
                                         else "model store and implementation disagree on a recorded answer",
                                         trace, f"event {first - a}: {ops[first]} | judge: {model[first]}",
                                         fails=[model[i] for i in fails]))

    def _run_case(self, case_ops, hbin, exe, exe_args):
        rp = os.path.join(self.work, "shrink.replay")
        with open(rp, "w") as f:
            f.write("\n".join(case_ops) + "\n")
        saved = self.problems
        self.problems = []
        r = self.run_harness(hbin, replay=rp, tag="shrink", timeout=120)
        if r is None:
            self.problems = saved
            return None
        ops, impl, _ = r
        m = self.run_model(exe, ops, tag="shrink", args=exe_args, timeout=120)
        self.problems = saved
        if m is None:
            return None
        return open(impl).read().splitlines(), open(m).read().splitlines()

    def _fails(self, case_ops, hbin, exe, exe_args, only_prop=False):
        r = self._run_case(case_ops, hbin, exe, exe_args)
        if r is None:
            return False
        impl, model = r
        if only_prop:
            return any(a.startswith("FAIL") or a.startswith("panic") for a in impl)
        if len(impl) != len(model):
            return True
        return any((a != b or a.startswith("FAIL") or a.startswith("panic")) for a, b in zip(impl, model))

    def classify_case(self, case_ops, hbin, exe, exe_args):
        r = self._run_case(case_ops, hbin, exe, exe_args)
        if r is None:
            return False, "could not re-run shrunk case"
        impl, model = r
        for i, (a, b) in enumerate(zip(impl, model)):
            if a.startswith("FAIL") or a.startswith("panic"):
                return True, f"line {i}: impl: {a} | model: {b}"
        for i, (a, b) in enumerate(zip(impl, model)):
            if a != b:
                return False, f"line {i}: impl: {a} | model: {b}"
        return False, "not reproducible on re-run"

    def shrink(self, case_ops, hbin, exe, exe_args, budget=150, only_prop=False, want_prop=False):
        """ddmin over op lines (each candidate re-executed on implementation and model from a fresh state)"""
        only_prop = only_prop or want_prop
        cur = list(case_ops)
        if not self._fails(cur, hbin, exe, exe_args, only_prop):
            return cur
        n = 2
        runs = 0
        while len(cur) >= 2 and runs < budget:
            chunk = max(1, len(cur) // n)
            reduced = False
            for s in range(0, len(cur), chunk):
                cand = cur[:s] + cur[s + chunk:]
                runs += 1
                if cand and self._fails(cand, hbin, exe, exe_args, only_prop):
                    cur = cand
                    n = max(n - 1, 2)
                    reduced = True
                    break
                if runs >= budget:
                    break
            if not reduced:
                if chunk == 1:
                    break
                n = min(len(cur), n * 2)
        return cur

    # ---------------------------------------------------------------- verdict
    def finish(self, level="proof"):
        known = load_known(self.pid)
        viol = []
        known_hits = []
        for p in self.problems:
            k = match_known(p, known)
            if k:
                known_hits.append((k, p))
            else:
                viol.append(p)
        for b in getattr(self, "_tmpbins", []):
            try:
                os.remove(b)
            except OSError:
                pass
        printed = set()
        for k, p in known_hits:
            if k["id"] not in printed:
                printed.add(k["id"])
                print(f"KNOWN-FINDING: property={self.pid} {k['text']}")
        rc = 0
        replay_path = None
        if viol:
            rc = 1
            # concrete failing inputs first
            viol.sort(key=lambda p: {"property": 0, "correspondence": 1, "proof": 2, "tie": 3}[p.kind])
            concrete = [p for p in viol if p.kind == "property"]
            replay_path = os.path.join(ROOT, "replays", f"{self.pid}-{self.tier}-seed{self.seed}.json")
            with open(replay_path, "w") as f:
                json.dump({"property": self.pid, "seed": self.seed, "tier": self.tier,
                           "failing_input_found": bool(concrete),
                           "problems": [p.to_json() for p in viol[:50]],
                           "how_to_replay": f"./check {self.pid} --replay {os.path.relpath(replay_path, ROOT)}"}, f, indent=1)
            for p in viol[:12]:
                print(f"  [{p.kind}] {p.what}: {' ; '.join(p.case[:6])}  {p.detail[:300]}", file=sys.stderr)
            tail = "" if concrete else " no-failing-input-found"
            print(f"VIOLATION property={self.pid} replay={replay_path}{tail}")
        cov = self.cov
        # schema hygiene: `exhaustive` is a boolean; counts are integers; samples is a non-empty list
        if "exhaustive" in cov and not isinstance(cov["exhaustive"], bool):
            cov["exhaustive_note"] = str(cov["exhaustive"])
            cov["exhaustive"] = False
        for k in ("evaluations", "distinct_nontrivial", "states", "transitions", "traces_validated_against_impl",
                  "obligations", "discharged", "programs", "disagreements_checked"):
            if k in cov and not isinstance(cov[k], int):
                try:
                    cov[k] = int(cov[k])
                except Exception:
                    cov.pop(k)
        if not isinstance(cov.get("samples"), list):
            cov["samples"] = [cov.get("samples")]
        cov["known_findings_hit"] = sorted(printed)
        ev = {"property_id": self.pid, "tier": self.tier, "seed": self.seed, "level": level,
              "coverage": cov, "assumptions": self.assumptions, "wall_s": round(time.time() - self.t0, 2),
              "violations": len(viol)}
        with open(os.path.join(ROOT, "evidence", f"{self.pid}.json"), "w") as f:
            json.dump(ev, f, indent=1)
        if os.environ.get("VERIF_KEEP_WORK"):
            print("work kept:", self.work)
        else:
            shutil.rmtree(self.work, ignore_errors=True)
        print(f"{self.pid} {self.tier}: obligations {cov['obligations']} discharged {cov['discharged']} "
              f"evaluations {cov['evaluations']} disagreements {cov['disagreements_checked']} "
              f"violations {len(viol)} known {len(printed)} wall {ev['wall_s']}s")
        return rc


# -------------------------------------------------------------------- helpers
class LakeLock:
    """serialise lake invocations in one project directory (several checks may run in parallel)"""

    def __enter__(self):
        import fcntl
        os.makedirs(BUILD, exist_ok=True)
        self.f = open(os.path.join(BUILD, "lake.lock"), "w")
        fcntl.flock(self.f, fcntl.LOCK_EX)

    def __exit__(self, *a):
        import fcntl
        fcntl.flock(self.f, fcntl.LOCK_UN)
        self.f.close()


def ensure_facts_tool():
    out = os.path.join(BIN, "facts")
    src = os.path.join(ROOT, "tools", "facts", "main.go")
    if not os.path.exists(out) or os.path.getmtime(out) < os.path.getmtime(src):
        os.makedirs(BIN, exist_ok=True)
        rc, o = sh(["go", "build", "-o", out, "."], cwd=os.path.dirname(src), env=goenv())
        if rc != 0:
            raise SystemExit("cannot build facts tool: " + o)
    return out


def make_overlay():
    """harness/<name>/*.go -> /repo/verifx/<name>/ ; harness/export/<pkg path>/*.go -> /repo/<pkg path>/"""
    rep = {}
    hroot = os.path.join(ROOT, "harness")
    for d in sorted(os.listdir(hroot)):
        full = os.path.join(hroot, d)
        if not os.path.isdir(full):
            continue
        if d == "export":
            for dp, _, files in os.walk(full):
                for fn in files:
                    if fn.endswith(".go"):
                        rel = os.path.relpath(os.path.join(dp, fn), full)
                        rep[os.path.join(REPO, rel)] = os.path.join(dp, fn)
        else:
            for dp, _, files in os.walk(full):
                for fn in files:
                    if fn.endswith(".go"):
                        rel = os.path.relpath(os.path.join(dp, fn), hroot)
                        rep[os.path.join(REPO, "verifx", rel)] = os.path.join(dp, fn)
    os.makedirs(BUILD, exist_ok=True)
    path = os.path.join(BUILD, f"overlay-{os.getpid()}.json")
    with open(path, "w") as f:
        json.dump({"Replace": rep}, f, indent=1)
    return path


def strip_comments(text):
    text = re.sub(r"/-.*?-/", lambda m: "\n" * m.group(0).count("\n"), text, flags=re.S)
    text = re.sub(r"--.*", "", text)
    return text


def theorem_names(path):
    text = strip_comments(open(path).read())
    ns = []
    names = []
    for line in text.splitlines():
        m = re.match(r"\s*namespace\s+(\S+)", line)
        if m:
            ns.append(m.group(1))
            continue
        m = re.match(r"\s*end\s+(\S+)", line)
        if m and ns and ns[-1] == m.group(1):
            ns.pop()
            continue
        m = re.match(r"\s*(?:private\s+|protected\s+)?theorem\s+(\S+)", line)
        if m:
            names.append(".".join(ns + [m.group(1)]))
    return names


def lean_sources_of(module, seen=None):
    """transitive closure of project-local imports"""
    seen = seen if seen is not None else {}
    path = os.path.join(LEAN, module.replace(".", "/") + ".lean")
    if module in seen or not os.path.exists(path):
        return list(seen.values())
    seen[module] = path
    for m in re.findall(r"(?m)^import\s+(\S+)", open(path).read()):
        if m.startswith("ClientGoVerif") or m.startswith("Driver"):
            lean_sources_of(m, seen)
    return list(seen.values())


def canon_key(op):
    """coarse class of an op line for de-duplicating reports: op words with numbers/hex collapsed"""
    w = op.split()
    return " ".join(w[:2])


def split_cases(ops):
    starts = [i for i, o in enumerate(ops) if o.startswith("# case")]
    if not starts:
        return [(0, len(ops))]
    return [(s, (starts[j + 1] if j + 1 < len(starts) else len(ops))) for j, s in enumerate(starts)]


def load_known(pid):
    path = os.path.join(ROOT, "known_findings.json")
    if not os.path.exists(path):
        return []
    return [k for k in json.load(open(path)) if k.get("property") == pid and k.get("status") == "known"]


def match_known(problem, known):
    """a problem matches a known finding when every regex of the entry's `match.ops` matches, in order and as a
    subsequence, the op lines of the (shrunk) failing case, and `match.kind` (if given) equals the problem kind"""
    for k in known:
        m = k.get("match", {})
        if m.get("kind") and m["kind"] != problem.kind:
            continue
        pats = m.get("ops", [])
        if not pats:
            continue
        it = iter(problem.case)
        ok = True
        for pat in pats:
            for line in it:
                if re.search(pat, line):
                    break
            else:
                ok = False
                break
        if ok and m.get("detail") and not re.search(m["detail"], problem.detail):
            ok = False
        if ok and m.get("max_len") and len(problem.case) > m["max_len"]:
            ok = False
        if ok and m.get("all_fails") and not (problem.fails and all(re.search(m["all_fails"], f) for f in problem.fails)):
            ok = False
        if ok:
            return k
    return None


def parse_args(argv):
    import argparse
    ap = argparse.ArgumentParser()
    ap.add_argument("pid")
    ap.add_argument("--tier", default=os.environ.get("VERIF_TIER", "quick"))
    ap.add_argument("--seed", type=int, default=int(os.environ.get("VERIF_SEED", "1")))
    ap.add_argument("--replay", default=None)
    return ap.parse_args(argv)
